"""C05 - isolation: inputs are never modified, results never alias, closing
is local.  Three sub-checks in one module / one evidence file:

(a) kind='op'  : receiver and argument files are unchanged by every
                 transformation (catalogue of vf.agentB_ops) and every query;
(b) kind='op'  : after a transformation every variable of the RESULT is
                 overwritten; the inputs must still be unchanged;
(c) kind='hist': open/close/drop/collect/read histories over 3-5 disk-backed
                 netCDF files with the cyclic GC disabled.
"""
import datetime
import gc
import io
import zlib

import netCDF4
import numpy as np
from hypothesis import strategies as st

from ..core import Result, exc_where, canon, attempt
from .. import spec as S
from .. import agentB_ops as O
from .. import libstate

ID = 'C05'
LEVEL = 'exploration'
CRASH_IS_VIOLATION = True
RULE = ('Hypothesis cases of two kinds.  kind=op (about 85%): a file '
        '(FileSpec: 1-4 dims of length 1-4, 1-4 variables of differing '
        'dimension sets, masked/unmasked, optional S1 variable, built by '
        'createDimension/createVariable, from_ncf, from_ncvs, or saved and '
        'reopened as class netcdf; or an IOAPI file from ioapi_base.'
        'from_arrays, optionally with -635 dates in TFLAG; query files also '
        'include disk-backed netcdf receivers written with plain netCDF4 that '
        'hold a packed int16 variable (scale_factor/add_offset, with/without '
        '_FillValue and missing cells); generic transform files declare 1-2 '
        'variables (1-D coordinates, 2-D, masked) as coordinates through '
        'setCoords in a third of the in-memory cases; other query files '
        'carry a 1-D coordinate variable (uniform or not, ascending or '
        'descending, f8/f4/i4, with no / 1-D-edge / n x 2 bounds variable) '
        'and a CF time variable (with/without time_bounds)) x one entry of '
        'the catalogue: every C01 transformation with in-domain arguments '
        '(copy, sliceDimensions, applyAlongDimensions, stack, '
        'subsetVariables, renameVariable(s), renameDimension(s), '
        'insertDimension, removeSingleton, reorderDimensions, mask, eval, '
        'binary operators, interpDimension, interpSigma; inplace=True is '
        'never used) or a query (getTimes bounds F/T and datetype, val2idx '
        'with every method x bounds x left/right x clean, time2idx, '
        'date2num, repr, dump, save to NETCDF3_CLASSIC/NETCDF4_CLASSIC/'
        'NETCDF4, getCoords).  Oracle (a): vf.spec.snapshot of the receiver '
        'and of the argument file (dimension names/lengths/unlimited flags, '
        'global attributes, per variable: dimensions, dtype, shape, data '
        'bytes of unmasked cells, mask bytes, fill value, attributes; '
        'CDATE/CTIME/WDATE/WTIME excluded) is identical before and after '
        'the call; in half of the in-memory cases all input buffers (data '
        'and masks) are write-protected first, so an in-place write raises '
        'inside the library and is reported with its frame.  A '
        'transformation that raises for another reason is C01\'s business '
        '(labelled, inputs still compared).  Oracle (b): every variable of '
        'the returned file is overwritten with a sentinel value and fully '
        'masked; the input snapshots must still be identical; a result '
        'variable that refuses the write because it is a view of a '
        'protected input is aliasing.  kind=hist (about 15%): 3-5 small '
        'files saved as NETCDF3_CLASSIC or NETCDF4, then <=15 steps of '
        'open(i) (pncopen(path, format=\'netcdf\')), close(h) (repeatable), '
        'drop(h) (delete the last reference), collect() (gc.collect()), '
        'read(h), derive(h[, h2]) (any catalogue transformation of an open '
        'handle, for stack/operators optionally with a second open handle on '
        'the same file as argument; the in-memory result is kept); arguments drawn from the model of live handles; automatic '
        'GC disabled for the whole case (re-enabled in finally).  Oracle '
        '(c): after every step every handle the model says is open reads '
        'back a snapshot identical to the one taken when the file was '
        'written, and every derived result answers the full probe (len and '
        'isunlimited of every dimension, attributes, dimensions/data/mask of '
        'every variable, repr) exactly as when it was made - in particular '
        'after its inputs were closed, dropped or collected.  A worker process that dies is a violation.  Non-trivial: '
        'op cases in which the call completed on a file with >=1 non-empty '
        'variable; histories containing close(A) ... open(B) ... second '
        'close of A (explicit, or by its finaliser after drop/collect) while '
        'B has not been closed (B live, or dropped but not yet collected), '
        'or a derived result probed after one of its inputs was closed or '
        'dropped (the first is also the input class of the fixed double-close '
        'finding).  '
        'Distinct by sha1 of the case spec.')
ASSUMPTIONS = [
    'vf.spec.snapshot observes everything the property lists (dimensions, '
    'attribute values, variable data, masks, variable metadata) through '
    'the public mapping interface',
    'the harness owns the GC schedule (gc disabled + explicit collect); '
    'finalisers fired from other threads are not explored',
    'getVarlist/audit_meta/updatemeta are not in the statement\'s list of '
    'queries and are not judged']
BUDGET = {'quick': dict(examples=4000, max_s=300, shrink_cap=300),
          'thorough': dict(examples=100000, max_s=3000, shrink_cap=600)}

VOLATILE = O.VOLATILE
TIME_UNITS = 'hours since 2000-01-01 00:00:00'
T0 = datetime.datetime(2000, 1, 1)
REFDATES = ['2000-01-01 00:00:00', '2000-01-01', '2000-01-01 0',
            '2000-01-01 00', '2000-01-01 00:00', '2000-01-01 00:00:00Z',
            '2000-01-01 00:00:00 UTC', '2000-01-01 00:00:00+00:00',
            '2000-01-01 00:00:00+0000', '2000-01-01 00Z', '2000-1-1',
            '2000-01-01 00:00Z', '2000-01-01T00:00:00']


# ------------------------------------------------------------------ strategy
@st.composite
def query_files(draw):
    """FileSpec with a coordinate variable (+bounds) and a CF time variable"""
    fs = draw(S.filespecs(max_len=4, max_dims=3, max_vars=3, max_rank=3,
                          attrs=True, masked=True, coordvars=False,
                          vrange=60))
    fs['route'] = draw(st.sampled_from(['create', 'create', 'from_ncf',
                                        'disk4']))
    dims = fs['dims']
    names = [d[0] for d in dims]
    # --- coordinate variable on one existing dimension (not 'time')
    cand = [d for d in dims if d[0] not in ('time', 'nv')]
    meta = dict(coord=None, time=False, tbounds=False)
    if cand:
        big = [d for d in cand if d[1] >= 3]
        d = draw(st.sampled_from(big + big + cand))
        n = d[1]
        uniform = draw(st.integers(0, 2)) > 0
        code = draw(st.sampled_from(['f8', 'f8', 'f4', 'i4']))
        start = draw(st.integers(-8, 8))
        if uniform:
            step = draw(st.integers(1, 3))
            steps = [step] * n
        else:
            steps = draw(st.lists(st.integers(1, 4), min_size=n, max_size=n))
        sign = draw(st.sampled_from([1, 1, -1]))
        vals = [start + sign * int(x) for x in np.cumsum(steps)]
        fs['vars'] = [v for v in fs['vars'] if v['name'] != d[0]]
        fs['vars'].append(dict(name=d[0], dims=[d[0]], dtype=code, data=vals,
                               mask=None, fill=None, attrs={}, coord=True))
        bk = draw(st.sampled_from(['none', 'none', 'edges', 'nx2']))
        if bk == 'nx2' and 'nv' in names and dict(
                (x[0], x[1]) for x in dims)['nv'] != 2:
            bk = 'edges'
        half = [s / 2.0 for s in steps]
        lo = [v - sign * h for v, h in zip(vals, half)]
        hi = [v + sign * h for v, h in zip(vals, half)]
        if bk == 'edges':
            en = d[0] + '_edge'
            dims.append([en, n + 1, False])
            fs['vars'].append(dict(name=d[0] + '_bounds', dims=[en],
                                   dtype='f8', data=lo + [hi[-1]], mask=None,
                                   fill=None, attrs={}))
        elif bk == 'nx2':
            if 'nv' not in names:
                dims.append(['nv', 2, False])
                names.append('nv')
            data = []
            for a, b in zip(lo, hi):
                data += [a, b]
            fs['vars'].append(dict(name=d[0] + '_bounds', dims=[d[0], 'nv'],
                                   dtype='f8', data=data, mask=None,
                                   fill=None, attrs={}))
        meta['coord'] = dict(dim=d[0], vals=vals, uniform=uniform,
                             bounds=bk, code=code, sign=sign)
    # --- CF time variable
    if draw(st.integers(0, 3)) > 0:
        if 'time' in names:
            nt = dict((x[0], x[1]) for x in dims)['time']
        else:
            nt = draw(st.integers(1, 4))
            dims.append(['time', nt, False])
            names.append('time')
        tsteps = draw(st.lists(st.integers(1, 6), min_size=nt, max_size=nt))
        if draw(st.booleans()):
            tsteps = [tsteps[0]] * nt
        tv = [float(x) for x in np.cumsum(tsteps)]
        fs['vars'] = [v for v in fs['vars'] if v['name'] not in
                      ('time', 'time_bounds')]
        # every spelling of the reference instant 2000-01-01 00:00 UTC the
        # library's parser accepts (date only, hour, minutes, full, zones)
        tattrs = {'units': 'hours since ' + draw(st.sampled_from(REFDATES))}
        if draw(st.booleans()):
            tattrs['calendar'] = draw(st.sampled_from(['standard',
                                                       'gregorian']))
        fs['vars'].append(dict(name='time', dims=['time'], dtype='f8',
                               data=tv, mask=None, fill=None, attrs=tattrs,
                               coord=True))
        meta['time'] = True
        meta['tvals'] = tv
        tb = draw(st.booleans())
        if tb and ('nv' not in names or
                   dict((x[0], x[1]) for x in dims)['nv'] == 2):
            if 'nv' not in names:
                dims.append(['nv', 2, False])
            data = []
            for v, s in zip(tv, tsteps):
                data += [v - s / 2.0, v + s / 2.0]
            fs['vars'].append(dict(name='time_bounds', dims=['time', 'nv'],
                                   dtype='f8', data=data, mask=None,
                                   fill=None, attrs={}))
            meta['tbounds'] = True
    # in-memory receivers sometimes have two unlimited dimensions (legal in
    # the netCDF4 model; a classic save may refuse them - either way the
    # receiver must not change)
    if fs['route'] in ('create', 'from_ncf') and len(dims) >= 2 and \
            draw(st.integers(0, 3)) == 0:
        fixed = [d for d in dims if not d[2]]
        need = 2 - (len(dims) - len(fixed))
        for d in fixed[:max(need, 0)]:
            d[2] = True
        fs['multi_unlimited'] = True
    fs['qmeta'] = meta
    return fs


@st.composite
def packed_files(draw):
    """spec of a disk-backed netCDF receiver with a packed variable"""
    nt = draw(st.integers(1, 3))
    nx = draw(st.integers(2, 4))
    fill = -32767
    has_fill = draw(st.integers(0, 3)) > 0
    raw = draw(st.lists(st.integers(-3000, 3000), min_size=nt * nx,
                        max_size=nt * nx))
    missing = has_fill and draw(st.integers(0, 3)) > 0
    if missing:
        holes = draw(st.lists(st.booleans(), min_size=nt * nx,
                              max_size=nt * nx))
        if not any(holes):
            holes[0] = True
        raw = [fill if h else r for r, h in zip(raw, holes)]
    pvals = draw(st.lists(st.integers(-40, 40), min_size=nt * nx,
                          max_size=nt * nx))
    pmask = draw(st.lists(st.booleans(), min_size=nt * nx, max_size=nt * nx))
    how = draw(st.sampled_from(['both', 'both', 'scale', 'offset']))
    step = draw(st.integers(1, 3))
    xs = [10.0 + step * i for i in range(nx)]
    hastime = draw(st.booleans())
    tv = [float(6 * (i + 1)) for i in range(nt)]
    fs = dict(kind='packed', shape=[nt, nx],
              fmt=draw(st.sampled_from(['NETCDF4_CLASSIC', 'NETCDF3_CLASSIC',
                                        'NETCDF4'])),
              unlimited=draw(st.booleans()), x=xs, raw=raw, has_fill=has_fill,
              fill=fill, missing=bool(missing),
              scale=0.01 if how in ('both', 'scale') else None,
              offset=273.15 if how in ('both', 'offset') else None,
              p=[float(v) / 2 for v in pvals], pmask=[int(b) for b in pmask],
              time=hastime, tvals=tv)
    fs['qmeta'] = dict(
        coord=dict(dim='x', vals=xs, uniform=True, bounds='none', code='f8',
                   sign=1),
        time=hastime, tbounds=False, tvals=tv)
    return fs


def save_formats(fs):
    if fs.get('kind') == 'packed':
        return ['NETCDF3_CLASSIC', 'NETCDF4_CLASSIC', 'NETCDF4']
    if fs.get('kind') == 'ioapi':
        return ['NETCDF3_CLASSIC', 'NETCDF4_CLASSIC', 'NETCDF4']
    if fs.get('multi_unlimited'):
        return ['NETCDF3_CLASSIC', 'NETCDF4_CLASSIC', 'NETCDF4',
                'NETCDF3_CLASSIC', 'NETCDF4_CLASSIC']
    out = ['NETCDF4']
    if O.disk_format(fs, 'disk3') == 'NETCDF3_CLASSIC' and \
            sum(1 for d in fs['dims'] if d[2]) <= 1:
        out += ['NETCDF3_CLASSIC', 'NETCDF4_CLASSIC']
    return out


@st.composite
def draw_query(draw, fs):
    """one query with in-domain arguments for this file"""
    qs = ['repr', 'dump', 'save', 'getCoords']
    if fs.get('multi_unlimited'):
        qs += ['save'] * 3
    if fs.get('kind') == 'ioapi':
        qs += ['getTimes'] * 4
    else:
        m = fs.get('qmeta') or {}
        if m.get('time'):
            qs += ['getTimes'] * 3 + ['time2idx'] * 2 + ['date2num']
        if m.get('coord'):
            qs += ['val2idx'] * 6
    if fs.get('kind') == 'packed':
        qs += ['save'] * 4 + ['dump', 'repr']
    q = draw(st.sampled_from(qs))
    if q == 'getTimes':
        return dict(q=q, bounds=draw(st.booleans()),
                    datetype=draw(st.sampled_from(['datetime', 'datetime',
                                                   'datetime64[s]'])))
    if q == 'dump':
        return dict(q=q, header=draw(st.booleans()))
    if q == 'save':
        return dict(q=q, format=draw(st.sampled_from(save_formats(fs))))
    if q in ('repr', 'getCoords'):
        return dict(q=q)
    opts = dict(method=draw(st.sampled_from(['nearest', 'bounds', 'bounds',
                                             'exact'])),
                bounds=draw(st.sampled_from(['ignore', 'warn', 'error'])),
                left=draw(st.sampled_from([None, 'nan'])),
                right=draw(st.sampled_from([None, 'nan'])),
                clean=draw(st.sampled_from(['none', 'mask'])))
    if q == 'val2idx':
        c = fs['qmeta']['coord']
        lo, hi = min(c['vals']), max(c['vals'])
        k = draw(st.integers(1, 4))
        vals = draw(st.lists(st.integers(4 * lo - 6, 4 * hi + 6), min_size=k,
                             max_size=k))
        return dict(q=q, dim=c['dim'], val=[v / 4.0 for v in vals], **opts)
    tv = fs['qmeta']['tvals']
    k = draw(st.integers(1, 3))
    hrs = draw(st.lists(st.integers(int(4 * tv[0]) - 4, int(4 * tv[-1]) + 4),
                        min_size=k, max_size=k))
    hours = [h / 4.0 for h in hrs]
    if q == 'date2num':
        return dict(q=q, hours=hours)
    return dict(q='time2idx', hours=hours, **opts)


TRANSFORM_WEIGHTS = dict(slice=3, apply=2, stack=2, insert=2, rmsing=2,
                         reorder=2, rendim=2, interpsigma=2, interp=3,
                         mask=2, eval=3, binop=6, copy=2, subset=4)


@st.composite
def op_cases(draw):
    which = draw(st.sampled_from(['transform'] * 5 + ['query'] * 4))
    if which == 'query':
        pick = draw(st.integers(0, 7))
        if pick <= 1:
            fs = draw(O.ioapi_specs(max_n=3, disk=False))
            fs['tflag635'] = draw(st.booleans())
        elif pick <= 3:
            fs = draw(packed_files())
        else:
            fs = draw(query_files())
        call = draw(draw_query(fs))
        return dict(kind='op', file=fs, call=call,
                    readonly=draw(st.booleans()))
    kind = draw(st.sampled_from(['generic'] * 5 + ['char'] + ['ioapi'] * 3))
    if kind == 'ioapi':
        fs = draw(O.ioapi_specs(max_n=3))
    else:
        fs = draw(O.generic_specs(char=(kind == 'char'), max_len=4,
                                  max_dims=4, max_vars=4, max_rank=3,
                                  vrange=60))
    info = O.info_of_spec(fs)
    rot = zlib.crc32(canon(fs).encode())
    step = O.draw_step(draw, info, weights=TRANSFORM_WEIGHTS, rot=rot)
    return dict(kind='op', file=fs, call=step, readonly=draw(st.booleans()))


@st.composite
def hist_cases(draw):
    nf = draw(st.integers(3, 5))
    files = []
    for _ in range(nf):
        fs = draw(S.filespecs(max_len=3, max_dims=2, max_vars=2, max_rank=2,
                              attrs=True, masked=True, vrange=60,
                              attr_kinds=('str', 'npint', 'npfloat')))
        fs['route'] = draw(st.sampled_from(['disk3', 'disk4']))
        files.append(fs)
    # model of live handles: [file index, closed?]
    live = []
    steps = []
    nderived = 0
    n = draw(st.integers(4, 15))
    for _ in range(n):
        ops = ['open', 'open', 'collect']
        if live:
            ops += ['close', 'close', 'drop', 'drop', 'read']
        openk = [k for k, (_, c) in enumerate(live) if not c]
        if openk and nderived < 3:
            # a transformation of an open handle (optionally with a second
            # open handle on the same file as argument): its result must
            # survive whatever happens to its inputs afterwards
            ops += ['derive', 'derive', 'derive']
        if any(c for _, c in live):
            # a closed handle is still referenced: the interesting
            # continuations are another open, then its drop / second close
            ops += ['open', 'drop', 'close', 'collect']
        if len(live) >= 6:
            ops = [o for o in ops if o != 'open']
        op = draw(st.sampled_from(ops))
        if op == 'open':
            i = draw(st.integers(0, nf - 1))
            live.append([i, False])
            steps.append(['open', i])
        elif op == 'collect':
            steps.append(['collect'])
        elif op == 'derive':
            k = draw(st.sampled_from(openk))
            info = O.info_of_spec(files[live[k][0]])
            stp = O.draw_step(draw, info, weights=TRANSFORM_WEIGHTS,
                              rot=len(steps) * 7 + nderived)
            arg = None
            same = [j for j in openk if j != k and live[j][0] == live[k][0]]
            if stp['op'] in ('stack', 'binop') and same and \
                    stp['args']['other'][0] == 'copy' and draw(st.booleans()):
                arg = draw(st.sampled_from(same))
            steps.append(['derive', k, stp, arg])
            nderived += 1
        else:
            k = draw(st.integers(0, len(live) - 1))
            steps.append([op, k])
            if op == 'close':
                live[k][1] = True
            elif op == 'drop':
                live.pop(k)
    return dict(kind='hist', files=files, steps=steps)


def strategy(tier):
    return st.one_of(op_cases(), op_cases(), op_cases(), op_cases(),
                     op_cases(), op_cases(), hist_cases())


# ------------------------------------------------------------------ helpers
def protect(f, on):
    """write-protect (or release) every in-memory buffer of file f"""
    n = 0
    for k in f.variables.keys():
        v = f.variables[k]
        if not isinstance(v, np.ndarray):
            continue
        try:
            v.setflags(write=not on)
            m = getattr(v, '_mask', None)
            if isinstance(m, np.ndarray) and m.shape != ():
                m.setflags(write=not on)
            n += 1
        except ValueError:
            pass
    return n


def is_readonly_error(e):
    return isinstance(e, ValueError) and 'read-only' in str(e)


def run_query(f, q):
    name = q['q']
    nan = float('nan')
    if name == 'getTimes':
        return f.getTimes(datetype=q['datetype'], bounds=q['bounds'])
    if name in ('repr', 'dump'):
        # pncdump calls exit() when writing a value fails (e.g. a masked
        # scalar); that is not C05's subject: reported as "call raised"
        try:
            if name == 'repr':
                return repr(f)
            out = io.StringIO()
            f.dump(header=q['header'], outfile=out)
            return None
        except SystemExit:
            raise RuntimeError('pncdump called exit()')
    if name == 'getCoords':
        return f.getCoords()
    if name == 'save':
        path = libstate.scratch_path('.nc')
        O.save_released(f, path, q['format'])
        return path
    kw = dict(method=q['method'], bounds=q['bounds'], clean=q['clean'],
              left=nan if q['left'] == 'nan' else None,
              right=nan if q['right'] == 'nan' else None)
    if name == 'val2idx':
        return f.val2idx(q['dim'], np.array(q['val'], dtype='f8'), **kw)
    times = np.array([T0 + datetime.timedelta(hours=h) for h in q['hours']])
    if name == 'date2num':
        return f.date2num(times, timekey='time')
    if name == 'time2idx':
        return f.time2idx(times, dim='time', **kw)
    raise KeyError(name)


def buffers(f):
    out = []
    for k in f.variables.keys():
        v = f.variables[k]
        if isinstance(v, np.ndarray):
            out.append(np.asarray(np.ma.getdata(v)))
            m = getattr(v, '_mask', None)
            if isinstance(m, np.ndarray) and m.shape != ():
                out.append(m)
    return out


def sentinel_write(out, r, klass, inputs=()):
    """overwrite every variable of a result file; returns number written"""
    n = 0
    inbufs = [b for x in inputs for b in buffers(x)]
    for k in list(out.variables.keys()):
        v = out.variables[k]
        if not isinstance(v, np.ndarray):
            continue
        try:
            if v.dtype.kind == 'S':
                v[...] = b'Z'
            else:
                v[...] = 77
            if isinstance(v, np.ma.MaskedArray):
                m = getattr(v, '_mask', None)
                if isinstance(m, np.ndarray) and m.shape == v.shape:
                    m[...] = True
            n += 1
        except ValueError as e:
            if not is_readonly_error(e):
                raise
            mine = [np.asarray(np.ma.getdata(v))]
            if any(np.shares_memory(a, b) for a in mine for b in inbufs):
                r.fail('result-aliases-input', 'variable %s of the result '
                       'refuses writes and shares memory with a write-'
                       'protected input buffer' % k, klass=klass)
            else:
                # e.g. a view of numpy's read-only masked constant
                r.label('result-var-readonly-not-alias')
    return n


# ------------------------------------------------------------------ (a)+(b)
def check_op(case):
    # the body runs in its own frame so that no local (loop variables,
    # caught exceptions with their tracebacks, ...) still references a disk
    # handle when the handles are closed and finalised
    keep = []
    try:
        return _check_op(case, keep)
    finally:
        if keep:
            O.close_all(keep)


def _check_op(case, keep):
    r = Result()
    fs = case['file']
    call = case['call']
    is_query = 'q' in call
    name = call['q'] if is_query else call['op']
    klass = name
    if is_query and name in ('val2idx', 'time2idx'):
        klass = '%s/%s' % (name, call['method'])
    try:
        f = O.build(fs, keep=keep)
        info = O.info_of_file(f)
        operand = None
        if not is_query and name in ('stack', 'binop'):
            other = call['args']['other']
            if other[0] == 'copy':
                operand = O.build(fs, keep=keep)   # independent twin
            else:
                operand = O.derive_operand(f, name, call['args'])
        # labels
        r.label('kind:' + ('query' if is_query else 'transform'),
                ('q:' if is_query else 'op:') + name)
        r.label('file:' + (fs.get('route', 'create')
                           if fs.get('kind') not in ('ioapi', 'packed')
                           else fs['kind']))
        if fs.get('kind') == 'packed':
            r.label('packed:' + ('missing-cells' if fs.get('missing') else
                                 ('fill-declared' if fs.get('has_fill')
                                  else 'no-fill')))
        if fs.get('coordkeys'):
            r.label('setCoords-declared')
        if fs.get('multi_unlimited'):
            r.label('two-unlimited-dims')
        if fs.get('tflag635'):
            r.label('ioapi:tflag-635')
        qm = fs.get('qmeta') or {}
        if is_query and name == 'val2idx':
            c = qm['coord']
            r.label('val2idx:' + call['method'],
                    'coord:' + ('uniform' if c['uniform'] else 'nonuniform'),
                    'coord:' + ('asc' if c['sign'] > 0 else 'desc'),
                    'coord:bounds-' + c['bounds'], 'coord:' + c['code'])
        if is_query and name in ('getTimes', 'date2num', 'time2idx') and \
                fs.get('kind') not in ('ioapi', 'packed'):
            tu = [v['attrs'].get('units', '') for v in fs['vars']
                  if v['name'] == 'time']
            base = tu[0].split(' since ')[-1] if tu else ''
            r.label('timeunits:' + (
                'date-only' if len(base) <= 10 else
                'no-colon' if ':' not in base else
                'zone' if base[-1] in 'ZC' or '+' in base else 'plain'))
        if is_query and name == 'getTimes':
            r.label('getTimes:bounds=%s' % call['bounds'])
            if qm.get('tbounds'):
                r.label('getTimes:with-time_bounds')
        if operand is not None:
            r.label('has-argument-file')
            if name == 'binop':
                r.label('binop-operand:' + call['args']['other'][0])
        inputs = [('receiver', f)]
        if operand is not None:
            inputs.append(('argument', operand))
        before = [S.snapshot(x, skip_attrs=VOLATILE) for _, x in inputs]
        ro = bool(case.get('readonly'))
        nprot = 0
        if ro:
            for _, x in inputs:
                nprot += protect(x, True)
        r.label('readonly' if (ro and nprot) else 'writable')
        has_data = any(int(np.prod(v[2])) > 0 for b in before
                       for v in b['vars'].values())
        # ---- the call
        out = None
        raised = None
        try:
            if is_query:
                out = run_query(f, call)
            else:
                out = O.apply_step(f, call, operand=operand)
        except (KeyboardInterrupt, SystemExit, MemoryError):
            raise
        except Exception as e:
            raised = e
        if raised is not None and is_readonly_error(raised):
            r.fail('inplace-write', '%s(%s) wrote into a write-protected '
                   'input buffer: %s' % (name, _short(call), raised),
                   where=exc_where(raised), klass=klass)
        elif raised is not None:
            r.label('call-raised')
        # ---- (a) inputs unchanged
        if ro:
            for _, x in inputs:
                protect(x, False)
        after = []
        for what, x in inputs:
            # an input that can no longer be inspected after the call (closed
            # or invalidated by it) has been modified in the strongest sense
            exc, snap = attempt(S.snapshot, x, skip_attrs=VOLATILE)
            if exc is not None:
                r.fail('input-unreadable', '%s can no longer be read after '
                       '%s(%s): %s: %s' % (what, name, _short(call),
                                           type(exc).__name__, exc),
                       klass=klass + ('/' + what if what != 'receiver'
                                      else ''))
                return r
            after.append(snap)
        for (what, _), b, a in zip(inputs, before, after):
            d = S.diff_snapshots(b, a)
            if d:
                r.fail('input-modified', '%s changed by %s(%s)%s: %s' % (
                    what, name, _short(call),
                    ' (which raised %s)' % type(raised).__name__
                    if raised is not None else '', d),
                    klass=klass + ('/' + what if what != 'receiver' else ''))
        r.nontrivial = raised is None and has_data
        # ---- (b) no aliasing
        if raised is None and not is_query and out is not None and \
                hasattr(out, 'variables') and not r.failures:
            if ro:
                # views handed out while protected stay protected: a result
                # variable that cannot be written is a view of an input
                pass
            nw = sentinel_write(out, r, klass, [x for _, x in inputs])
            if nw:
                r.label('sentinel-written')
            after2 = [S.snapshot(x, skip_attrs=VOLATILE) for _, x in inputs]
            for (what, _), b, a in zip(inputs, before, after2):
                d = S.diff_snapshots(b, a)
                if d:
                    r.fail('result-aliases-input', 'writing into the result '
                           'of %s(%s) changed the %s: %s' % (
                               name, _short(call), what, d), klass=klass)
    finally:
        raised = None
    return r


def _short(call):
    s = str({k: v for k, v in call.items() if k not in ('ood',)})
    return s if len(s) < 300 else s[:300] + '...'


# ------------------------------------------------------------------ (c)
def write_raw(fs, path, fmt):
    """FileSpec -> netCDF file, without the library under test"""
    m = S.model_of(fs)
    ds = netCDF4.Dataset(path, 'w', format=fmt)
    try:
        for n, (l, u) in m.dims.items():
            ds.createDimension(n, None if u else l)
        for k, val in m.gattrs.items():
            ds.setncattr(k, val)
        for sv in fs['vars']:
            mv = m.vars[sv['name']]
            kw = {}
            if mv.masked and sv.get('fill') is not None:
                kw['fill_value'] = sv['fill']
            v = ds.createVariable(mv.name, S.DT[sv['dtype']], mv.dims, **kw)
            for k, val in mv.attrs.items():
                v.setncattr(k, val)
            if mv.dims:
                v[...] = mv.data
            else:
                v.assignValue(mv.data)
    finally:
        ds.close()


def probe(f):
    """full structural + content probe of a derived result, through the
    public interface: len / isunlimited of every dimension, attributes,
    dimensions / data / mask of every variable (vf.spec.snapshot) and the
    header dump (repr)"""
    snap = S.snapshot(f, skip_attrs=VOLATILE)
    try:
        text = repr(f)
    except SystemExit:
        raise RuntimeError('pncdump called exit()')
    return snap, text


def check_hist(case):
    from PseudoNetCDF import pncopen
    r = Result()
    files = case['files']
    paths = []
    expected = []
    # the files are written and their reference content is read with plain
    # netCDF4.Dataset objects (whose own finaliser is guarded), so that
    # nothing the history is about happens before the first step
    for fs in files:
        path = libstate.scratch_path('.nc')
        write_raw(fs, path, O.disk_format(fs, fs['route']))
        ds = netCDF4.Dataset(path)
        expected.append(S.snapshot(ds))
        ds.close()
        del ds
        paths.append(path)
    r.label('hist', 'hist:files=%d' % len(files))
    for fs in files:
        r.label('hist:' + O.disk_format(fs, fs['route']))
    live = []     # dicts: h, i, closed, opened_at, first_close_at
    garbage = []  # model: dropped handles that were closed and may still be
    #               finalised (they call close() again): first_close_at
    open_garbage = []  # opened_at of handles dropped while open and not yet
    #               collected: they still own a C id and can be hit too
    derived = []  # dicts: f (in-memory result), probe, op, parents (entries)
    probed_after_close = False
    hazard = False
    was_gc = gc.isenabled()
    # no finaliser left over from an earlier case may fire inside this one
    gc.collect()
    gc.disable()
    try:
        for t, stp in enumerate(case['steps']):
            op = stp[0]
            r.label('step:' + op)
            second_close_of = []   # first_close_at of handles closed again
            if op == 'open':
                h = pncopen(paths[stp[1]], format='netcdf')
                live.append(dict(h=h, i=stp[1], closed=False, opened_at=t,
                                 first_close_at=None))
                h = None
            elif op == 'close':
                e = live[stp[1]]
                if e['closed']:
                    second_close_of.append(e['first_close_at'])
                    r.label('close-repeated')
                else:
                    e['closed'] = True
                    e['first_close_at'] = t
                e['h'].close()
            elif op == 'drop':
                e = live.pop(stp[1])
                if e['closed']:
                    # the finaliser (now, or at the next collect) closes again
                    garbage.append(e['first_close_at'])
                    second_close_of.append(e['first_close_at'])
                    r.label('drop-closed')
                else:
                    open_garbage.append(e['opened_at'])
                    r.label('drop-open')
                e['h'] = None
                e['dropped'] = True
                del e
            elif op == 'collect':
                second_close_of.extend(garbage)
                gc.collect()
            elif op == 'read':
                pass
            elif op == 'derive':
                e = live[stp[1]]
                parents = [e]
                operand = None
                if stp[3] is not None:
                    parents.append(live[stp[3]])
                    operand = live[stp[3]]['h']
                    r.label('derive:disk-argument')
                r.label('derive:' + stp[2]['op'])
                out = None
                try:
                    out = O.apply_step(e['h'], stp[2], operand=operand)
                    pr = probe(out) if hasattr(out, 'variables') else None
                except (KeyboardInterrupt, SystemExit, MemoryError):
                    raise
                except Exception:
                    # a transformation that does not complete is C01's
                    # subject
                    r.label('derive-raised')
                    pr = None
                if pr is not None:
                    derived.append(dict(f=out, probe=pr, op=stp[2]['op'],
                                        parents=parents, t=t))
                out = operand = None
            # input class of the anticipated defect: a handle that was
            # closed at time c is closed a second time while a handle opened
            # after c is (model-)open
            for c in second_close_of:
                if c is None:
                    continue
                if any((not e['closed']) and e['opened_at'] > c
                       for e in live) or any(o > c for o in open_garbage):
                    hazard = True
            if op == 'collect':
                open_garbage = []   # finalised now (their first close)
            klass = 'after-second-close' if hazard else 'no-second-close'
            # invariant: every model-open handle reads back in full
            for k, e in enumerate(live):
                if e['closed']:
                    continue
                try:
                    snap = S.snapshot(e['h'])
                except (KeyboardInterrupt, SystemExit, MemoryError):
                    raise
                except Exception as ex:
                    r.fail('open-handle-unreadable', 'step %d (%s): handle '
                           '%d on file %d, open according to the history, '
                           'cannot be read: %s: %s' % (
                               t, stp, k, e['i'], type(ex).__name__,
                               str(ex)[:200]),
                           where=type(ex).__name__, klass=klass)
                    break
                d = S.diff_snapshots(expected[e['i']], snap)
                if d:
                    r.fail('open-handle-content', 'step %d (%s): handle %d '
                           'on file %d reads different content: %s' % (
                               t, stp, k, e['i'], d), klass=klass)
                    break
            # closing is local: every derived result still answers the full
            # probe exactly as it did when it was made, whatever happened to
            # the files it was derived from
            for dv in derived:
                gone = any(pe['closed'] or pe.get('dropped')
                           for pe in dv['parents'])
                if gone:
                    probed_after_close = True
                dk = '%s/%s' % (dv['op'], 'input-closed' if gone
                                else 'inputs-open')
                if hazard:
                    dk += '/after-second-close'
                try:
                    now = probe(dv['f'])
                except (KeyboardInterrupt, SystemExit, MemoryError):
                    raise
                except Exception as ex:
                    r.fail('derived-result-broken', 'step %d (%s): the '
                           'result of %s made at step %d can no longer be '
                           'inspected: %s: %s' % (
                               t, stp[:2], dv['op'], dv['t'],
                               type(ex).__name__, str(ex)[:200]),
                           where=type(ex).__name__, klass=dk)
                    break
                d = S.diff_snapshots(dv['probe'][0], now[0])
                if d is None and dv['probe'][1] != now[1]:
                    d = 'repr() of the result changed'
                if d:
                    r.fail('derived-result-changed', 'step %d (%s): the '
                           'result of %s made at step %d changed: %s' % (
                               t, stp[:2], dv['op'], dv['t'], d), klass=dk)
                    break
            if r.failures:
                break
        r.nontrivial = hazard or probed_after_close
        if derived:
            r.label('hist:derived-results')
        if probed_after_close:
            r.label('hist:derived-probed-after-input-close')
        if hazard:
            r.label('hist:second-close-while-other-open')
        else:
            r.label('hist:no-second-close')
    finally:
        # leave no open dataset and no pending finaliser behind
        for e in live:
            if not e['closed']:
                try:
                    e['h'].close()
                except Exception:
                    pass
        live = []
        derived = []
        e = dv = pe = None
        gc.collect()
        if was_gc:
            gc.enable()
    return r


def check_case(case):
    if case.get('kind') == 'hist':
        return check_hist(case)
    return check_op(case)


# ------------------------------------------------------------------ known
# No open finding.  Fixed since this check was written (regressions pinned as
# replays/C05/fixed-*.json): netcdf.close()/__del__ double close (cf1d29e),
# getTimes rewriting -635 dates inside TFLAG (9724d18), val2idx(method=
# 'bounds') editing the coordinate variable (e15d699).  The klass
# 'after-second-close' of (c) is kept because it is the non-triviality rule.
