"""C04 - stacking concatenates in order and inverts splitting.

Family 'split': a generated file is cut by the numpy model into 1-4
consecutive non-empty pieces along one dimension, the pieces are built as
independent library files and stacked; the result must reproduce the
original file and slicing it at each piece's extent must reproduce the piece.
Family 'indep': 2-4 independently filled files of one schema (the stacked
dimension may have a different length in each) are stacked; the result must
be the numpy.ma concatenation in argument order.
Thorough tier adds the functional form stack_files and the multi-file
openers on netCDF pieces saved to disk."""
import gc
import os
import shutil

import numpy as np
from hypothesis import strategies as st

from ..core import Result, guard
from .. import spec as S
from .. import agentA_common as A

ID = 'C04'
LEVEL = 'exploration'
RULE = ('Hypothesis: FileSpec (1-5 dims of length 1-6, <=1 unlimited, 1-5 '
        'variables of rank 0-4 over differing dimension subsets, masked and '
        'unmasked, coordinate variables, f4/f8/i2/i4 + optional S1 variable, '
        'attributes; a quarter of the in-memory cases add a fixed-width text '
        'variable S2-S5 / U2-U5 without d) x stack dimension d (any dimension, biased to ones that '
        'variables use).  Family split (2/3 of cases): partition of len(d) '
        'into 1-4 consecutive non-empty pieces made by numpy slicing of the '
        'spec, each built as an independent library file (3/5), or cut by '
        'the library itself from the original with a slice, an index list or '
        'np.arange (dimension table of every piece = the original\'s), then '
        'pieces[0].stack(pieces[1:], d) (a single other file is also passed '
        'bare).  Family indep: 2-4 files of one schema with independently '
        'drawn data, masks and len(d).  Oracle: every variable holding d '
        'bit-equals numpy.ma.concatenate of the inputs in argument order '
        '(mask included, dtype kept); variables without d equal the first '
        "file's; dimensions compared as mapping name -> (length, unlimited) "
        'with len(d) = sum, order of the dimension dictionary not judged; '
        'variable and global attributes equal the first file\'s (all inputs '
        'carry the same attributes); in 2/3 of the independent-files cases '
        'the variables without d - coordinate variables included - differ '
        'between the files, with coordinate keys declared by setCoords, by '
        'coordkeys= (stack_files), or implicitly by netcdf-class inputs '
        '(stack_files on reopened pieces, the multi-file openers); in a '
        'quarter of the cases with 2-4 inputs (half for the disk entries) the '
        'same file object / path appears more than once in the argument list '
        '(a,a,b / a,b,a,c / b,c,c) and every occurrence must contribute; split family: the result equals the '
        'original file field by field and result.sliceDimensions(d=slice(a,b))'
        ' equals each piece (unit-stride slices only).  Thorough tier also '
        '(and ~1/8 of the quick tier) runs core._functions.stack_files '
        '(data/dims only) and netcdf.open_mfdataset / pncmfopen(stackdim=d) '
        'on pieces saved as netCDF (R8b handle discipline) under file names '
        'whose lexical order usually differs from the argument order '
        '(unpadded numbers part_8..part_12, permuted letters); a sixth of '
        'those cases split a compact file into 10-12 pieces of length 1.  Non-trivial: >=3 inputs, or d is '
        'not the leading axis of some variable, or a masked or coordinate '
        'variable lies on d.  Distinct by sha1 of the case spec.')
ASSUMPTIONS = ['numpy slicing and numpy.ma.concatenate are the reference for '
               'split and concatenation',
               'pieces have >= 1 element along the stacked dimension',
               'all stacked files share one schema (names, dims, dtypes, '
               'attributes)']
BUDGET = {'quick': dict(examples=7200, max_s=240),
          'thorough': dict(examples=40000, max_s=1100)}

FOPTS = dict(max_len=6, max_dims=5, max_vars=5, attrs=True, masked=True,
             char=True, fills=[-999, -9999, -1, 99, 0, 0])


# ------------------------------------------------------------------ strategy
@st.composite
def cases(draw, tier='quick'):
    fs = draw(S.filespecs(**FOPTS))
    names = [d[0] for d in fs['dims']]
    dlen = A.dlen_of(fs)
    used = [n for n in names if any(n in v['dims'] for v in fs['vars'])]
    long_ = [n for n in used if dlen[n] >= 3]
    pick = draw(st.integers(0, 9))
    if long_ and pick < 6:
        d = draw(st.sampled_from(long_))
    elif used and pick < 9:
        d = draw(st.sampled_from(used))
    else:
        d = draw(st.sampled_from(names))
    entry = 'method'
    if tier == 'thorough':
        entry = draw(st.sampled_from(['method', 'method', 'stack_files',
                                      'mfdataset', 'pncmfopen']))
    elif draw(st.integers(0, 19)) >= 15:
        # quick: a modest share through the functional form and the
        # multi-file openers on netCDF pieces written to scratch
        entry = draw(st.sampled_from(['pncmfopen', 'mfdataset', 'stack_files',
                                      'pncmfopen', 'stack_files']))
    if entry != 'method' and draw(st.integers(0, 5)) == 0:
        # many small pieces (10-12 of length 1) of a compact file
        small = draw(S.filespecs(max_len=3, max_dims=3, max_vars=3,
                                 attrs=True, masked=True, char=False,
                                 unlimited=False, min_rank=1,
                                 fills=[-999, -9999, 0]))
        sd = [x[0] for x in small['dims']
              if any(x[0] in v['dims'] for v in small['vars'])]
        d = draw(st.sampled_from(sd))
        n = draw(st.integers(10, 12))
        fs = draw(A.redraw(small, FOPTS, newlen={d: n}))
        return dict(family='split', file=fs, dim=d, sizes=[1] * n,
                    bare=False, entry=entry, names=draw(pathnames(n)))
    if draw(st.integers(0, 4)) < 3:
        n = dlen[d]
        k = draw(st.integers(min(2, n), min(4, n)))
        if draw(st.integers(0, 9)) == 0:
            k = 1
        cuts = sorted(draw(st.lists(st.integers(1, n - 1), min_size=k - 1,
                                    max_size=k - 1, unique=True))) \
            if k > 1 else []
        edges = [0] + cuts + [n]
        sizes = [b - a for a, b in zip(edges[:-1], edges[1:])]
        bare = (k == 2 and draw(st.booleans()))
        return dict(family='split', file=fs, dim=d, sizes=sizes, bare=bare,
                    entry=entry, names=draw(pathnames(k))
                    if entry != 'method' else None,
                    order=draw(orders(k, entry)),
                    text=draw(textvars(fs, d)),
                    cutby=draw(st.sampled_from(['model', 'model', 'lib-slice',
                                                'lib-list', 'lib-arange'])),
                    **draw(coordmodes(fs, d, entry)))
    k = draw(st.integers(2, 4))
    files = [fs]
    # non-stacked variables - coordinate variables included - differ
    # between the files in 2/3 of the cases: the first file's must win
    vary = draw(st.integers(0, 2)) > 0
    for i in range(k - 1):
        nl = draw(st.integers(1, 5))
        files.append(draw(A.redraw(fs, FOPTS, newlen={d: nl},
                                   vary_coords=vary)))
    bare = (k == 2 and draw(st.booleans()))
    return dict(family='indep', files=files, dim=d, bare=bare, entry=entry,
                names=draw(pathnames(k)) if entry != 'method' else None,
                order=draw(orders(k, entry)),
                text=draw(textvars(fs, d)),
                **draw(coordmodes(fs, d, entry)))


@st.composite
def textvars(draw, fs, d):
    """an extra fixed-width text variable (station ids, labels: dtype S2-S5
    or U2-U5) without the stack dimension, identical in every input;
    in-memory routes only (classic netCDF has no such type)"""
    if draw(st.integers(0, 3)) > 0:
        return None
    dl = A.dlen_of(fs)
    others = [n for n in dl if n != d]
    dim = draw(st.sampled_from(others)) if others and draw(
        st.integers(0, 3)) > 0 else None
    n = dl[dim] if dim else 1
    width = draw(st.integers(2, 5))
    data = draw(st.lists(st.text(alphabet='ABCXYZ019', min_size=1,
                                 max_size=width), min_size=n, max_size=n))
    return dict(kind=draw(st.sampled_from(['S', 'U'])), width=width,
                dim=dim, data=data)


@st.composite
def orders(draw, k, entry):
    """argument list as indices into the k distinct inputs; None = each
    once, in order.  Otherwise the same file / path appears more than once
    (a,a,b / a,b,a,c / b,c,c): every occurrence must contribute."""
    if k < 2 or k > 4:
        return None
    if draw(st.integers(0, 7)) >= (4 if entry != 'method' else 2):
        return None
    order = list(range(k))
    for i in range(draw(st.integers(1, 2))):
        order.insert(draw(st.integers(0, len(order))),
                     draw(st.integers(0, k - 1)))
    if draw(st.integers(0, 3)) == 0:
        order = order[1:]       # the first argument need not be input 0
    return order


@st.composite
def coordmodes(draw, fs, d, entry):
    """how the inputs declare coordinate keys: not at all, setCoords on
    every input, coordkeys= argument (stack_files), or netcdf-class inputs
    (stack_files on reopened files; dimension variables are coordinate keys
    automatically)"""
    ck = [v['name'] for v in fs['vars'] if v.get('coord')]
    others = [v['name'] for v in fs['vars']
              if not v.get('coord') and d not in v['dims']]
    if others and draw(st.booleans()):
        ck = ck + [draw(st.sampled_from(others))]
    modes = ['none', 'setcoords']
    if entry == 'stack_files':
        modes = ['none', 'setcoords', 'coordkeys', 'coordkeys', 'netcdf',
                 'netcdf']
    elif entry != 'method':
        modes = ['none']
    mode = draw(st.sampled_from(modes)) if ck else 'none'
    return dict(coordmode=mode, ckeys=ck if mode != 'none' else [])


@st.composite
def pathnames(draw, k):
    """file name stems for k pieces; the argument order is usually NOT the
    lexical order of the names (unpadded numbers crossing a power of ten,
    permuted letters)"""
    scheme = draw(st.sampled_from(['unpadded', 'permuted', 'unpadded',
                                   'padded']))
    if scheme == 'unpadded':
        start = draw(st.sampled_from([1, 8, 9, 98, 99]))
        return ['part_%d' % (start + i) for i in range(k)]
    if scheme == 'permuted':
        return ['f_%s' % c for c in draw(st.permutations(
            list('abcdefghijkl'[:k])))]
    return ['p%03d' % i for i in range(k)]


def strategy(tier):
    return cases(tier)


# ------------------------------------------------------------------ oracle
def disk_ok(fs):
    """netCDF classic restrictions for the disk entry points"""
    for i, (n, l, u) in enumerate(fs['dims']):
        if u:
            if not any(n in v['dims'] for v in fs['vars']):
                return False   # its length on disk would be 0
            for v in fs['vars']:
                if n in v['dims'] and v['dims'][0] != n:
                    return False
    for v in fs['vars']:
        # a cell equal to the declared fill reads back masked from disk
        if v.get('fill') is not None and v['dtype'] != 'S1':
            if any(x == v['fill'] for x in v['data']):
                return False
    return True


def run_stack(r, case, files, d):
    entry = case.get('entry', 'method')
    if entry == 'method':
        if case.get('bare') and len(files) == 2:
            return guard(r, 'stack-raises',
                         lambda: files[0].stack(files[1], d))
        return guard(r, 'stack-raises',
                     lambda: files[0].stack(files[1:], d))
    mode = case.get('coordmode', 'none')
    ckeys = list(case.get('ckeys') or [])
    if entry == 'stack_files' and mode != 'netcdf':
        from PseudoNetCDF.core._functions import stack_files
        if mode == 'coordkeys':
            return guard(r, 'stack_files-raises',
                         lambda: stack_files(files, d, coordkeys=ckeys))
        return guard(r, 'stack_files-raises', lambda: stack_files(files, d))
    # disk-backed entry points
    from .. import libstate
    from PseudoNetCDF import pncmfopen
    from PseudoNetCDF.core._files import netcdf
    paths = []
    ufiles = case.get('_ufiles') or files
    names = case.get('names') or ['p%03d' % i for i in range(len(ufiles))]
    cdir = libstate.scratch_path('.d')
    os.makedirs(cdir)
    case['_cdir'] = cdir
    for f, stem in zip(ufiles, names):
        p = os.path.join(cdir, stem + '.nc')
        ok, o = guard(r, 'save-raises',
                      lambda: f.save(p, format='NETCDF4_CLASSIC', verbose=0))
        if not ok:
            return False, None
        # R8b: close, drop the reference, collect - before the next open
        o.close()
        del o
        gc.collect()
        paths.append(p)
    if case.get('_order'):
        # the same path may be passed more than once
        paths = [paths[i] for i in case['_order']]
    if entry == 'stack_files':
        # netcdf-class inputs: all pieces are open at once (as the
        # multi-file openers do), closed and collected afterwards
        from PseudoNetCDF.core._functions import stack_files
        opened = []
        try:
            for p in paths:
                opened.append(netcdf(p))
            ok, out = guard(r, 'stack_files-raises',
                            lambda: stack_files(opened, d))
        finally:
            for o in opened:
                try:
                    o.close()
                except Exception:
                    pass
            del opened
            gc.collect()
        return ok, out
    if entry == 'mfdataset':
        ok, out = guard(r, 'open_mfdataset-raises',
                        lambda: netcdf.open_mfdataset(*paths, stackdim=d))
    else:
        ok, out = guard(r, 'pncmfopen-raises',
                        lambda: pncmfopen(paths, stackdim=d,
                                          format='netcdf'))
    gc.collect()
    return ok, out


def check_case(case):
    r = Result()
    d = case['dim']
    if case['family'] == 'split':
        fs = case['file']
        edges = [0]
        for s in case['sizes']:
            edges.append(edges[-1] + int(s))
        specs = [A.slice_spec(fs, d, a, b)
                 for a, b in zip(edges[:-1], edges[1:])]
        r.label('family:split')
    else:
        specs = case['files']
        fs = specs[0]
        edges = [0]
        for s in specs:
            edges.append(edges[-1] + A.dlen_of(s)[d])
        r.label('family:indep')
    cut = case.get('cutby', 'model') if case['family'] == 'split' else \
        'model'
    uedges = list(edges)
    if cut == 'model' and case.get('vary_gattrs', True):
        # every distinct input carries its own global attribute values: the
        # result must carry the FIRST argument's
        specs = [dict(s_, gattrs=dict(s_.get('gattrs') or {},
                                      piece={'py': 'int', 'v': i},
                                      title='piece %d' % i))
                 for i, s_ in enumerate(specs)]
        r.label('global-attrs-differ')
    order = case.get('order')
    uspecs = specs
    if order:
        specs = [uspecs[i] for i in order]
        edges = [0]
        for s in specs:
            edges.append(edges[-1] + A.dlen_of(s)[d])
        r.label('repeated-input')
        if order[0] != 0:
            r.label('first-argument-not-input-0')
    entry = case.get('entry', 'method')
    mode = case.get('coordmode', 'none')
    if entry == 'stack_files' and mode == 'netcdf' and \
            not all(disk_ok(s) for s in specs):
        case = dict(case, coordmode='none', ckeys=[])
        mode = 'none'
    disk = entry in ('mfdataset', 'pncmfopen') or (
        entry == 'stack_files' and mode == 'netcdf')
    if disk and not all(disk_ok(s) for s in specs):
        # classic netCDF needs the unlimited dimension first; fall back
        case = dict(case, entry='method')
        entry = 'method'
        disk = False
    r.label('entry:' + entry, 'coordmode:' + mode)
    models = [S.model_of(s) for s in specs]
    m0 = models[0]
    ufiles = [S.build_file(s) for s in uspecs]
    if cut != 'model':
        # the pieces are cut by the LIBRARY from the original file, with a
        # slice, an index list or an index array; each piece must have the
        # original's dimension table (only len(d) differs) before stacking
        r.label('cut:' + cut)
        orig = S.build_file(case['file'])
        morig = S.model_of(case['file'])
        ufiles = []
        for a_, b_ in zip(uedges[:-1], uedges[1:]):
            sel = slice(a_, b_) if cut == 'lib-slice' else (
                list(range(a_, b_)) if cut == 'lib-list'
                else np.arange(a_, b_))
            okc, pc = guard(r, 'split-raises',
                            lambda: orig.sliceDimensions(**{d: sel}))
            if not okc:
                r.failures[-1].klass = cut
                return r
            wantp = {n_: ((b_ - a_) if n_ == d else l_, u_)
                     for n_, (l_, u_) in morig.dims.items()}
            for msg in A.cmp_dims(pc, wantp, 'piece %d:%d' % (a_, b_)):
                r.fail('split-dims', msg, klass=cut)
            ufiles.append(pc)
        if r.failures:
            return r
    files = [ufiles[i] for i in order] if order else ufiles
    txt = case.get('text')
    if txt and entry in ('method', 'stack_files') and mode != 'netcdf':
        tdt = '%s%d' % (txt['kind'], txt['width'])
        tdims = (txt['dim'],) if txt['dim'] else ()
        tarr = np.array(txt['data'], dtype=tdt).reshape(
            [m0.dims[x][0] for x in tdims])
        for f_ in ufiles:
            tv = f_.createVariable('sid', tdt, tdims)
            tv[...] = tarr
        for m_ in models:
            m_.vars['sid'] = S.MVar('sid', tdims, tarr.copy(), S.OD())
        r.label('text-variable:' + txt['kind'])
    case = dict(case, _ufiles=ufiles, _order=order)
    if mode == 'setcoords':
        for f_ in files:
            f_.setCoords(list(case.get('ckeys') or []))
    if case['family'] == 'indep':
        for name, mv in m0.vars.items():
            if d in mv.dims:
                continue
            differs = any(not np.array_equal(
                np.ma.getdata(mv.data), np.ma.getdata(m_.vars[name].data))
                for m_ in models[1:])
            if differs:
                r.label('unstacked-var-differs')
                if name in m0.dims:
                    r.label('unstacked-coordvar-differs')
                if name in (case.get('ckeys') or []) or (
                        disk and name in m0.dims):
                    r.label('unstacked-coordkey-differs')
    # ---- labels / non-triviality
    k = len(specs)
    r.label('inputs:%d' % k)
    nt = k >= 3
    on_d = [mv for mv in m0.vars.values() if d in mv.dims]
    if not on_d:
        r.label('no-var-on-d')
    for mv in on_d:
        if mv.dims[0] != d:
            nt = True
            r.label('d-not-leading')
        if mv.masked:
            nt = True
            r.label('masked-on-d')
            if mv.fill == 0:
                r.label('masked-on-d-fill-0')
        if mv.name == d:
            nt = True
            r.label('coordvar-on-d')
        if mv.data.dtype.kind == 'S':
            r.label('char-on-d')
        if mv.data.ndim >= 3:
            r.label('rank>=3-on-d')
    if any(d not in mv.dims for mv in m0.vars.values()):
        r.label('var-without-d')
    if m0.dims[d][1]:
        r.label('d-unlimited')
    if case.get('bare'):
        r.label('bare-other')
    if any(b - a == 1 for a, b in zip(edges[:-1], edges[1:])):
        r.label('piece-len-1')
    r.nontrivial = nt

    names = case.get('names')
    if entry != 'method' and names:
        r.label('paths-nonlexical' if list(names) != sorted(names)
                else 'paths-lexical')
    if k >= 10:
        r.label('inputs>=10')
    case = dict(case)      # run_stack records its scratch directory
    ok, out = run_stack(r, case, files, d)
    try:
        if ok:
            judge(r, case, out, models, m0, d, edges, entry)
    finally:
        if disk:
            from .. import libstate
            if out is not None:
                out.close()
            del out
            gc.collect()
            if case.get('_cdir'):
                shutil.rmtree(case['_cdir'], ignore_errors=True)
    return r


def judge(r, case, out, models, m0, d, edges, entry):
    for msg in S.wellformed(out, 'stacked'):
        r.fail('result-malformed', msg)
    if r.failures:
        return
    light = entry != 'method'
    total = edges[-1]
    want = {n: (total if n == d else l, u) for n, (l, u) in m0.dims.items()}
    if list(out.dimensions.keys()) != list(m0.dims.keys()):
        r.label('dim-order-changed')
    msgs = A.cmp_dims(out, want, 'stacked')
    if light:
        # functional / disk forms: only names and lengths are asserted
        msgs = [m for m in msgs if 'unlimited=' not in m]
    for msg in msgs:
        r.fail('dims', msg)
    if set(out.variables.keys()) != set(m0.vars.keys()):
        r.fail('var-names', 'variables %r, expected %r' % (
            sorted(out.variables.keys()), sorted(m0.vars.keys())))
        return
    expected = {}
    for name, mv in m0.vars.items():
        if d in mv.dims:
            ax = list(mv.dims).index(d)
            parts = [m.vars[name].data for m in models]
            if mv.masked:
                exp = np.ma.concatenate(parts, axis=ax)
            else:
                exp = np.concatenate(parts, axis=ax)
            tag = 'stacked'
        else:
            exp = mv.data
            tag = 'unstacked'
        expected[name] = exp
        ov = out.variables[name]
        if tuple(ov.dimensions) != tuple(mv.dims):
            r.fail('var-dims', 'variable %s has dimensions %r, expected %r' %
                   (name, tuple(ov.dimensions), mv.dims))
            continue
        klass = ''
        if tag == 'stacked':
            klass = ('masked' if mv.masked else 'plain') + \
                ('/lead' if mv.dims[0] == d else '/inner')
        if light and mv.masked:
            # stack_files copies through Pseudo2NetCDF, which stores masked
            # cells as the declared fill value (netCDF convention): a cell
            # that should be masked may be unmasked and hold the fill value
            la = A.plain(ov[...])
            fv = getattr(ov, 'fill_value', getattr(ov, '_FillValue', None))
            if fv is not None and np.shape(la) == np.shape(exp):
                asfill = np.ma.getmaskarray(exp) & (
                    np.asarray(np.ma.getdata(la)) == fv)
                if (asfill & ~np.ma.getmaskarray(la)).any():
                    r.label('masked-cells-stored-as-fill')
                ov = np.ma.MaskedArray(np.asarray(np.ma.getdata(la)),
                                       mask=np.ma.getmaskarray(la) | asfill)
        # functional / disk forms: values and masks only (Pseudo2NetCDF
        # takes the type of a 0-d all-masked netCDF variable from numpy's
        # float64 masked constant); numeric comparison stays exact
        msg = S.cmp_array(ov, exp, 'variable %s%r' % (name, mv.dims),
                          bits=True, check_dtype=not light)
        if msg:
            r.fail('data-' + tag, msg, klass=klass)
        if not light:
            msg = S.cmp_attrs(ov, mv.attrs, 'variable %s' % name,
                              skip=('fill_value',))
            if msg:
                r.fail('var-attrs', msg)
    msg = S.cmp_attrs(out, m0.gattrs, 'stacked file')
    if msg:
        r.fail('global-attrs', msg, klass=entry)
    if r.failures or light:
        return
    # ---- (iii) slicing the stacked file at a piece's extent gives the piece
    for i, (a, b) in enumerate(zip(edges[:-1], edges[1:])):
        okp, piece = guard(r, 'slice-back-raises',
                           lambda: out.sliceDimensions(**{d: slice(a, b)}))
        if not okp:
            return
        mi = models[i]
        wantp = {n: ((b - a) if n == d else l, u)
                 for n, (l, u) in m0.dims.items()}
        for msg in A.cmp_dims(piece, wantp, 'slice %d:%d' % (a, b)):
            r.fail('slice-back-dims', msg)
        for name, mv in m0.vars.items():
            if name not in piece.variables:
                r.fail('slice-back-names', 'variable %s missing' % name)
                continue
            exp = mi.vars[name].data if d in mv.dims else mv.data
            msg = S.cmp_array(piece.variables[name], exp,
                              'slice %d:%d variable %s' % (a, b, name),
                              bits=True)
            if msg:
                r.fail('slice-back-data', msg)
            msg = S.cmp_attrs(piece.variables[name], mv.attrs,
                              'slice variable %s' % name,
                              skip=('fill_value',))
            if msg:
                r.fail('slice-back-attrs', msg)
