"""Shared vocabulary of the checks: Failure / Result, exception guards,
canonical hashing of JSON-able case specs.  No PseudoNetCDF import here."""
import hashlib
import json
import os
import sys
import traceback


class Failure(object):
    """One way in which a case contradicted the property.

    clause : which clause of the oracle failed (short, stable identifier)
    detail : human readable detail (not part of the signature)
    where  : exception type + innermost library frame, if an exception
    klass  : coarse input class (optional), part of the signature
    """

    def __init__(self, clause, detail='', where='', klass=''):
        self.clause = clause
        self.detail = str(detail)[:2000]
        self.where = where
        self.klass = klass

    @property
    def sig(self):
        parts = [self.clause]
        if self.where:
            parts.append(self.where)
        if self.klass:
            parts.append(self.klass)
        return '|'.join(parts)

    def asdict(self):
        return dict(sig=self.sig, clause=self.clause, detail=self.detail,
                    where=self.where, klass=self.klass)

    def __repr__(self):
        return 'Failure(%s: %s)' % (self.sig, self.detail[:200])


class Result(object):
    def __init__(self):
        self.labels = []
        self.nontrivial = False
        self.failures = []
        self.rejected = False
        # optional: what is hashed for distinctness / written as the replay
        # (stateful checks set this to the concrete journal)
        self.journal = None

    def label(self, *names):
        for n in names:
            if n not in self.labels:
                self.labels.append(n)

    def fail(self, clause, detail='', where='', klass=''):
        self.failures.append(Failure(clause, detail, where, klass))

    def add(self, failure):
        if failure is not None:
            self.failures.append(failure)


class Reject(Exception):
    """Raised by a check when the generated case is outside the domain
    (counted, never a verdict)."""


class HarnessError(Exception):
    """The harness itself is wrong (exit 2)."""


def lib_frame(tb, pkg='PseudoNetCDF'):
    """innermost frame inside the library: 'file.py:func' (no line number so
    the signature survives unrelated edits)"""
    best = ''
    for fs in traceback.extract_tb(tb):
        fn = fs.filename.replace('\\', '/')
        if '/' + pkg + '/' in fn:
            best = '%s:%s' % (fn.split('/' + pkg + '/')[-1], fs.name)
    return best


def exc_where(exc):
    return '%s@%s' % (type(exc).__name__, lib_frame(exc.__traceback__))


def guard(result, clause, fn, *args, **kwds):
    """Run a library call that the property requires to complete.  Returns
    (ok, value).  An exception becomes a Failure with the library frame."""
    try:
        return True, fn(*args, **kwds)
    except (KeyboardInterrupt, SystemExit, MemoryError):
        raise
    except HarnessError:
        raise
    except Exception as e:  # noqa: the exception is *reported*, not swallowed
        result.fail(clause, '%s: %s' % (type(e).__name__, str(e)[:500]),
                    where=exc_where(e))
        return False, None


def attempt(fn, *args, **kwds):
    """Run a call that is allowed to raise.  Returns (raised_exc_or_None,
    value)."""
    try:
        return None, fn(*args, **kwds)
    except (KeyboardInterrupt, SystemExit, MemoryError):
        raise
    except HarnessError:
        raise
    except Exception as e:
        return e, None


def canon(spec):
    return json.dumps(spec, sort_keys=True, separators=(',', ':'),
                      default=_default)


def _default(o):
    import numpy as np
    if isinstance(o, (np.integer,)):
        return int(o)
    if isinstance(o, (np.floating,)):
        return float(o)
    if isinstance(o, (np.bool_,)):
        return bool(o)
    if isinstance(o, np.ndarray):
        return o.tolist()
    if isinstance(o, (set, frozenset, tuple)):
        return list(o)
    raise TypeError('not JSON-able: %r' % (type(o),))


def spec_hash(spec):
    return hashlib.sha1(canon(spec).encode()).hexdigest()


def abridge(obj, maxlen=160, depth=0):
    """shorten long strings / lists so samples in evidence stay readable"""
    if isinstance(obj, str):
        return obj if len(obj) <= maxlen else obj[:maxlen] + '...(%d)' % len(obj)
    if isinstance(obj, dict):
        return {k: abridge(v, maxlen, depth + 1) for k, v in obj.items()}
    if isinstance(obj, (list, tuple)):
        if len(obj) > 24:
            return [abridge(v, maxlen, depth + 1) for v in obj[:24]] + \
                ['...(%d items)' % len(obj)]
        return [abridge(v, maxlen, depth + 1) for v in obj]
    return obj


def eprint(*a):
    print(*a, file=sys.stderr, flush=True)


def verif_root():
    return os.path.dirname(os.path.dirname(os.path.abspath(__file__)))
