"""known_findings.json: committed, read-only at run time.

Each entry: {"id", "property", "status": "known"|"fixed", "what",
"commit" (fixed only), "replay" (pinned reproducer)}.  Only status=="known"
entries suppress anything, and only when BOTH the input-class predicate and
the symptom predicate registered below for that id match the failure."""
import json
import os

from .core import verif_root

_CACHE = None


def entries():
    global _CACHE
    if _CACHE is None:
        p = os.path.join(verif_root(), 'known_findings.json')
        if os.path.exists(p):
            with open(p) as fi:
                _CACHE = json.load(fi)['findings']
        else:
            _CACHE = []
        # per-property files written while a check is being developed;
        # merged into known_findings.json at integration time
        d = os.path.join(verif_root(), 'findings')
        if os.path.isdir(d):
            for fn in sorted(os.listdir(d)):
                if fn.endswith('.json'):
                    with open(os.path.join(d, fn)) as fi:
                        _CACHE = _CACHE + json.load(fi)['findings']
    return _CACHE


def describe(kid):
    for e in entries():
        if e.get('id') == kid:
            return e.get('what', '')
    return ''


# id -> predicate(spec, failure) ; registered by vf.props.* modules through
# register() so that the predicate sits next to the oracle it talks about.
_MATCHERS = {}


def register(kid, fn):
    _MATCHERS[kid] = fn


class Matcher(object):
    def __init__(self, prop):
        self.active = [e for e in entries()
                       if e.get('property') == prop and
                       e.get('status') == 'known']
        if os.environ.get('VF_NO_KNOWN'):
            # development aid: report known findings as violations (to
            # obtain a fresh shrunk reproducer); never set by the manifest
            self.active = []

    def match(self, spec, failure):
        for e in self.active:
            fn = _MATCHERS.get(e['id'])
            if fn is None:
                continue
            try:
                if fn(spec, failure):
                    return e['id']
            except Exception:
                continue
        return None
