#!/usr/bin/env python3
"""tools_markfixed.py <commit> <finding-id> [<finding-id> ...]
Moves findings from findings/<ID>.json (status known) into known_findings.json
as status fixed with the commit, and turns their pinned reproducers into
regression cases (expect: pass)."""
import glob, json, os, sys
commit = sys.argv[1]
ids = sys.argv[2:]
kf = json.load(open('known_findings.json'))
have = {e['id'] for e in kf['findings']}
for fn in sorted(glob.glob('findings/*.json')):
    d = json.load(open(fn))
    keep = []
    for e in d['findings']:
        if e['id'] in ids:
            e = dict(e)
            e['status'] = 'fixed'
            e['commit'] = commit
            e.pop('proposed_fix', None)
            e.pop('fix_note', None)
            e['line'] = 'fixed: property=%s %s %s' % (e['property'], commit, e['what'])
            reps = e.get('replay')
            reps = [reps] if isinstance(reps, str) else (reps or [])
            for rp in reps:
                if os.path.exists(rp):
                    r = json.load(open(rp))
                    r['expect'] = 'pass'
                    r['note'] = ('regression case of fixed finding %s (%s); ' % (e['id'], commit)) + str(r.get('note', ''))
                    new = rp.replace('/known-', '/fixed-')
                    json.dump(r, open(new, 'w'), indent=1)
                    if new != rp:
                        os.remove(rp)
                    e['replay'] = new if isinstance(e.get('replay'), str) else [x.replace('/known-', '/fixed-') for x in reps]
            if e['id'] not in have:
                kf['findings'].append(e)
            print('fixed', e['id'])
        else:
            keep.append(e)
    d['findings'] = keep
    json.dump(d, open(fn, 'w'), indent=1)
json.dump(kf, open('known_findings.json', 'w'), indent=1)
