#!/bin/bash
# tools_runseed.sh <patch.diff> <ID> [tier] : run check <ID> against a scratch
# copy of /repo with the patch applied (VF_REPO), print the outcome, clean up.
P=$(readlink -f "$1"); ID=$2; TIER=${3:-quick}
S=/var/tmp/seedrun-$$
rm -rf $S; mkdir -p $S; cp -r /repo/src $S/src
( cd $S && patch -s -p1 -F0 --no-backup-if-mismatch < "$P" ) || { echo "PATCH FAILED"; rm -rf $S; exit 3; }
cd /verif
VF_REPO=$S/src VF_FOUND_SUFFIX=seed ./check $ID --tier $TIER > $S/out.txt 2>&1
rc=$?
grep -E "VIOLATION|signature|detail|HARNESS|tier=" $S/out.txt | head -${LINES_OUT:-12}
echo "exit=$rc"
rm -rf $S
exit $rc
