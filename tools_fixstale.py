#!/usr/bin/env python3
"""turn pinned reproducers whose finding is recorded as fixed into regression cases"""
import glob, json, os
kf = json.load(open('known_findings.json'))
fixed = {e['id'] for e in kf['findings'] if e['status'] == 'fixed'}
for p in sorted(glob.glob('replays/*/*.json')):
    r = json.load(open(p))
    ex = r.get('expect', 'pass')
    if ex.startswith('known:') and ex.split(':', 1)[1] in fixed:
        kid = ex.split(':', 1)[1]
        r['expect'] = 'pass'
        r['note'] = 'regression case of fixed finding %s; %s' % (kid, r.get('note', ''))
        new = p.replace('/known-', '/fixed-')
        json.dump(r, open(new, 'w'), indent=1)
        if new != p:
            os.remove(p)
        for e in kf['findings']:
            if e['id'] == kid:
                reps = e.get('replay') or []
                reps = [reps] if isinstance(reps, str) else list(reps)
                reps = [x for x in reps if x != p]
                if new not in reps:
                    reps.append(new)
                e['replay'] = reps
        print('converted', p)
json.dump(kf, open('known_findings.json', 'w'), indent=1)
