#!/usr/bin/env python3
"""Moves the entries of findings/<ID>.json into the single committed
known_findings.json (the per-property files exist only while checks are being
developed).  Entries keep their id, status and pinned reproducers."""
import glob, json, os
kf = json.load(open('known_findings.json'))
have = {e['id']: e for e in kf['findings']}
for fn in sorted(glob.glob('findings/*.json')):
    d = json.load(open(fn))
    for e in d['findings']:
        e = dict(e)
        if e['id'] in have:
            continue
        e.pop('proposed_fix', None)
        note = e.pop('fix_note', None)
        if e['status'] == 'known':
            e['why_not_fixed'] = note or ''
            e['line'] = 'KNOWN-FINDING: property=%s %s %s' % (e['property'], e['id'], e['what'])
        else:
            e.setdefault('line', 'fixed: property=%s %s %s' % (e['property'], e.get('commit', '?'), e['what']))
        kf['findings'].append(e)
        have[e['id']] = e
        print('merged', e['id'], e['status'])
    d['findings'] = []
    json.dump(d, open(fn, 'w'), indent=1)
json.dump(kf, open('known_findings.json', 'w'), indent=1)
print(sum(1 for e in kf['findings'] if e['status'] == 'known'), 'known,',
      sum(1 for e in kf['findings'] if e['status'] == 'fixed'), 'fixed')
